#!/usr/bin/env python3
"""usage: lib/mutcampaign.py [--slots 3] [--per-file 10] [--seed 1] [--out DIR] [--list] [file ...]

Mutation rehearsal (not part of the registered commands; never touches /repo or /verif): small syntactic changes of the files the
properties are anchored in (relational / boolean / arithmetic operators, constants, negations, dropped statements, swapped
iterator adaptors) are applied one at a time to a scratch copy of /repo; the quick checks of the properties anchored in the
file run against it (scratch copy of /verif at HEAD, bounded-model output cached: it does not depend on the code) until one of
them reports a VIOLATION.  A change no check reports is then put to the repository's own test suite.  One JSON line per
mutant in <out>/results.ndjson: status killed (by which check, first signature) | invalid (does not compile) | tests (only the
repository's suite notices) | SURVIVED | toolerror | timeout.
Survivors are candidates: equivalent changes, behaviour no property speaks about, or a gap of a check."""
import argparse, json, os, random, re, shutil, subprocess, sys, threading, time, queue

V = os.path.dirname(os.path.dirname(os.path.abspath(__file__)))
COST = {"C16": 8, "C09": 17, "C03": 19, "C12": 24, "C04": 28, "C13": 35, "C10": 45, "C01": 45, "C06": 47, "C11": 30, "C17": 59,
        "C18": 61, "C20": 64, "C08": 70, "C15": 75, "C19": 81, "C02": 91, "C07": 108, "C05": 121, "C14": 131}


def anchors():
    m = {}
    for l in open(os.path.join(V, "properties.jsonl")):
        p = json.loads(l)
        for f in p["anchors"]["files"]:
            m.setdefault(f, []).append(p["id"])
    return m


SKIP_LINE = re.compile(r"^\s*(//|#\[|use |pub use |mod |pub mod |pub\(crate\) mod |\*|/\*)|\b(info!|trace!|debug!|warn!|println!|eprintln!|todo!|unreachable!|unimplemented!|debug_assert)")
OPS = [
    ("rel", r" == ", " != "), ("rel", r" != ", " == "), ("rel", r" <= ", " < "), ("rel", r" >= ", " > "), ("rel", r" < ", " <= "), ("rel", r" > ", " >= "),
    ("bool", r" && ", " || "), ("bool", r" \|\| (?!\{)", " && "),
    ("arith", r" \+ 1\b", ""), ("arith", r" - 1\b", ""), ("arith", r" \+ 1\b", " + 2"), ("arith", r" \+ (?=[a-z(])", " - "), ("arith", r" - (?=[a-z(])", " + "),
    ("const", r"(?<![\w.])true\b", "false"), ("const", r"(?<![\w.])false\b", "true"),
    ("neg", r"\bif !", "if "), ("neg", r"\(!(?=[a-z])", "("), ("neg", r"\bif (?=[a-z_.]+\.(is_|contains|starts_with|ends_with))", "if !"),
    ("int", r"(?<![\w.#\[])(\d{1,5})\b(?![.\w])", None),
    ("swap", r"\.is_some\(\)", ".is_none()"), ("swap", r"\.is_none\(\)", ".is_some()"), ("swap", r"\.any\(", ".all("), ("swap", r"\.all\(", ".any("),
    ("swap", r"\.min\(", ".max("), ("swap", r"\.max\(", ".min("), ("swap", r"\.first\(\)", ".last()"), ("swap", r"\.last\(\)", ".first()"),
    ("swap", r"\.starts_with\(", ".ends_with("), ("swap", r"\.ends_with\(", ".starts_with("), ("swap", r"\.rsplit_once\(", ".split_once("), ("swap", r"\.split_once\(", ".rsplit_once("),
    ("swap", r"\.rev\(\)", ""), ("swap", r"\.skip\(1\)", ""), ("swap", r"\.is_ok\(\)", ".is_err()"), ("swap", r"\.rfind\(", ".find("), ("swap", r"\.find\((?=['\"])", ".rfind("),
    ("swap", r"\.saturating_sub\(", ".wrapping_sub("), ("swap", r"\.or_insert_with\(", ".or_insert_with(|| unreachable!()).clone(); let _ = ("),
]
DROP = re.compile(r"^\s*(?:[a-z_][\w.\[\]]*(?:\(\))?\.)+(push|insert|extend|remove|retain|sort\w*|dedup\w*|truncate|clear|push_str|append|reverse|swap_remove|shift_remove|pop)\(.*\);\s*$|^\s*(continue|break);\s*$|^\s*[a-z_][\w.\[\]]* [-+|&]= .*;\s*$")


def code_segments(line):
    """(start, end) spans of the line outside string / char literals and outside a trailing // comment"""
    spans, i, start, n = [], 0, 0, len(line)
    while i < n:
        c = line[i]
        if c == '"':
            spans.append((start, i))
            i += 1
            while i < n and line[i] != '"':
                i += 2 if line[i] == "\\" else 1
            i += 1
            start = i
            continue
        if c == "'" and i + 2 < n and (line[i + 2] == "'" or (line[i + 1] == "\\" and i + 3 < n and line[i + 3] == "'")):
            spans.append((start, i))
            i += 3 if line[i + 2] == "'" else 4
            start = i
            continue
        if c == "/" and i + 1 < n and line[i + 1] == "/":
            break
        i += 1
    spans.append((start, i))
    return [(a, b) for a, b in spans if b > a]


def mutants_of(path, text):
    out = []
    lines = text.split("\n")
    in_test = False
    for ln, line in enumerate(lines):
        if re.match(r"\s*#\[cfg\(test\)\]", line):
            in_test = True
        if in_test or SKIP_LINE.search(line) or not line.strip():
            continue
        if "bail!" in line or "anyhow!" in line or ".context(" in line or "with_context(" in line or "assert" in line:
            continue
        if DROP.match(line):
            out.append({"file": path, "line": ln + 1, "op": "drop", "old": line, "new": re.match(r"\s*", line).group(0) + "/* dropped */"})
        for (a, b) in code_segments(line):
            seg = line[a:b]
            for kind, pat, rep in OPS:
                for m in re.finditer(pat, seg):
                    if kind == "int":
                        v = int(m.group(1))
                        before, after = line[:a + m.start(1)].rstrip(), line[a + m.end(1):].lstrip()
                        if before[-1:] in ("<", ";", "u", "i", "x", "b", "_") or after[:1] == ">" or v > 70000 or re.search(r"\bfn \w+", line):
                            continue
                        r = str(v + 1) if v != 1 else "0"
                        new = line[:a + m.start(1)] + r + line[a + m.end(1):]
                    else:
                        new = line[:a + m.start()] + rep + line[a + m.end():]
                    if new != line:
                        out.append({"file": path, "line": ln + 1, "op": kind, "old": line, "new": new})
    return out


def sh(cmd, cwd=None, env=None, timeout=None):
    try:
        r = subprocess.run(cmd, cwd=cwd, env=env, stdout=subprocess.PIPE, stderr=subprocess.STDOUT, text=True, timeout=timeout, shell=isinstance(cmd, str), start_new_session=True)
        return r.returncode, r.stdout
    except subprocess.TimeoutExpired as e:
        subprocess.run("pkill -f %s" % (cwd or "xxxxxx"), shell=True)
        return 124, (e.stdout or b"").decode(errors="replace") if isinstance(e.stdout, bytes) else (e.stdout or "")


class Slot:
    def __init__(self, k, outdir, cache):
        self.m = "/dev/shm/verif-camp%d" % k
        self.cache = cache
        os.makedirs(self.m + "/repo", exist_ok=True)
        os.makedirs(self.m + "/work", exist_ok=True)
        # /verif at HEAD (committed files only), harness pointed at the scratch repository; the build directory stays warm
        sh("mkdir -p %s/verif && git -C %s archive HEAD | tar -x -C %s/verif" % (self.m, V, self.m))
        sh("mkdir -p %s/verif/evidence %s/verif/replays; sed -i 's#/repo/#%s/repo/#g' %s/verif/harness/Cargo.toml %s/verif/harness/src/main.rs %s/verif/cfkit/Cargo.toml" % ((self.m,) * 6))

    def sync_repo(self):
        sh("rsync -ai --delete --exclude target --exclude .git /repo/ %s/repo/ | grep '^>f' | cut -d' ' -f2- | while read f; do touch \"%s/repo/$f\"; done" % (self.m, self.m))

    def run(self, mu, props):
        self.sync_repo()
        p = os.path.join(self.m, "repo", mu["file"])
        lines = open(p).read().split("\n")
        if lines[mu["line"] - 1] != mu["old"]:
            return {"status": "toolerror", "detail": "line mismatch"}
        lines[mu["line"] - 1] = mu["new"]
        open(p, "w").write("\n".join(lines))
        env = dict(os.environ, VERIF_WORK=self.m + "/work", VERIF_MC_CACHE=self.cache, VERIF_WORKERS="4")
        res = {"status": "SURVIVED", "checked": []}
        for pr in props:
            t = time.time()
            rc, out = sh(["./check", pr, "--tier", "quick"], cwd=self.m + "/verif", env=env, timeout=700)
            res["checked"].append([pr, rc, round(time.time() - t)])
            if rc == 124:
                return dict(res, status="timeout", by=pr)
            if "harness build failed" in out:
                return dict(res, status="invalid", detail=[l for l in out.splitlines() if l.startswith("error")][:2])
            if rc == 1 and "VIOLATION" in out:
                sig = [l.strip() for l in out.splitlines() if l.strip().startswith("signature:")]
                return dict(res, status="killed", by=pr, sig=sig[:2], nsig=len(sig))
            if rc != 0:
                return dict(res, status="toolerror", by=pr, detail=out[-600:])
        rc, out = sh("cargo test --workspace --no-fail-fast --offline -j 4 2>&1 | grep -E '^test result|panicked|FAILED' | head -20", cwd=self.m + "/repo",
                     env=dict(os.environ, CARGO_TARGET_DIR=self.m + "/repo-target"), timeout=1500)
        if "FAILED" in out or "failed" in out and not re.search(r"\b0 failed", out) or rc == 124:
            bad = [l for l in out.splitlines() if re.search(r"[1-9]\d* failed|FAILED|panicked", l)]
            if bad:
                return dict(res, status="tests", detail=bad[:3])
        return res


def main():
    ap = argparse.ArgumentParser()
    ap.add_argument("--slots", type=int, default=3)
    ap.add_argument("--per-file", type=int, default=10)
    ap.add_argument("--seed", type=int, default=1)
    ap.add_argument("--out", default="/dev/shm/mutcampaign")
    ap.add_argument("--list", action="store_true")
    ap.add_argument("--props", default="")
    ap.add_argument("files", nargs="*")
    a = ap.parse_args()
    anc = anchors()
    files = a.files or sorted(anc)
    rnd = random.Random(a.seed)
    todo = []
    for f in files:
        ms = mutants_of(f, open(os.path.join("/repo", f)).read())
        rnd.shuffle(ms)
        # spread over operators and lines
        seen, pick = set(), []
        for mu in ms:
            k = (mu["op"], mu["line"] // 8)
            if k in seen:
                continue
            seen.add(k)
            pick.append(mu)
            if len(pick) >= a.per_file:
                break
        props = a.props.split(",") if a.props else sorted(anc.get(f, []), key=lambda p: COST.get(p, 99))
        todo += [(mu, props) for mu in pick]
        if a.list:
            print(f, len(ms), "mutants,", len(pick), "picked, props", props)
    if a.list:
        for mu, _ in todo:
            print("%s:%d [%s] %s  =>  %s" % (mu["file"], mu["line"], mu["op"], mu["old"].strip()[:90], mu["new"].strip()[:90]))
        return
    os.makedirs(a.out, exist_ok=True)
    rnd.shuffle(todo)
    q = queue.Queue()
    for t in todo:
        q.put(t)
    lock = threading.Lock()
    resf = open(os.path.join(a.out, "results.ndjson"), "a")

    def worker(k):
        s = Slot(k, a.out, os.path.join(a.out, "mc-cache"))
        while True:
            try:
                mu, props = q.get_nowait()
            except queue.Empty:
                return
            t = time.time()
            try:
                r = s.run(mu, props)
            except Exception as e:  # pragma: no cover
                r = {"status": "toolerror", "detail": repr(e)}
            r.update({"file": mu["file"], "line": mu["line"], "op": mu["op"], "old": mu["old"].strip(), "new": mu["new"].strip(), "props": props, "wall": round(time.time() - t)})
            with lock:
                resf.write(json.dumps(r) + "\n")
                resf.flush()
                print("%-9s %s:%d [%s] %s" % (r["status"], mu["file"], mu["line"], mu["op"], r.get("by", "")), flush=True)

    th = [threading.Thread(target=worker, args=(k,)) for k in range(a.slots)]
    for t in th:
        t.start()
    for t in th:
        t.join()


if __name__ == "__main__":
    main()
