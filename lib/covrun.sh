#!/bin/sh
# usage: lib/covrun.sh [props...]   (not part of the registered commands)
# Line coverage of /repo under the quick checks: a scratch copy of /verif with a harness built with -C instrument-coverage (nightly
# toolchain, its llvm-profdata / llvm-cov) runs the quick checks; lib/covreport.py then lists the lines of the anchored files that
# no check executes - places where no change can be noticed.
C=/dev/shm/verif-cov
T=$HOME/.rustup/toolchains/nightly-x86_64-unknown-linux-gnu/lib/rustlib/x86_64-unknown-linux-gnu/bin
[ $# -eq 0 ] && set -- C01 C02 C03 C04 C05 C06 C07 C08 C09 C10 C11 C12 C13 C14 C15 C16 C17 C18 C19 C20
cd $C/verif || exit 2
for p in "$@"; do
  mkdir -p $C/prof/$p
  LLVM_PROFILE_FILE=$C/prof/$p/%p-%8m.profraw VERIF_WORK=$C/work VERIF_MC_CACHE=$C/mc-cache VERIF_WORKERS=${VERIF_WORKERS:-6} ./check $p --tier quick --no-build 2>&1 | tail -1
  $T/llvm-profdata merge -sparse $C/prof/$p/*.profraw -o $C/prof/$p.profdata 2>/dev/null && rm -rf $C/prof/$p
done
$T/llvm-profdata merge -sparse $C/prof/*.profdata -o $C/all.profdata
$T/llvm-cov export --format=lcov -instr-profile $C/all.profdata $C/verif/harness/target/debug/vharness > $C/all.lcov 2>/dev/null
echo "lcov: $(grep -c '^SF:' $C/all.lcov) files"
