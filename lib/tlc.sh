#!/bin/sh
# usage: lib/tlc.sh <dir> <module> [tlc args...]   runs TLC by hand with the classpath of all spec dirs
V="$(cd "$(dirname "$0")/.." && pwd)"
CP=/opt/veriftools/tla/tla2tools.jar
for d in "$V"/spec/*/; do CP="$CP:$d"; done
dir="$1"; mod="$2"; shift 2
cd "$V/spec/$dir" && exec timeout "${TLC_TIMEOUT:-900}" java -XX:+UseParallelGC -Xss1g -Xmx12g -Dfile.encoding=UTF-8 -cp "$CP" tlc2.TLC -workers "${TLC_WORKERS:-8}" -metadir /dev/shm/verif-work/manual-$mod -cleanup -noGenerateSpecTE "$@" -config "$mod.cfg" "$mod.tla"
