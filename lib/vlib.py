"""Shared machinery of /verif/check: harness build, TLC runner, vector extraction, comparison,
known findings, evidence and replay files.  Verdicts come from the TLA+ specifications: S2I compares
the implementation with expectations printed by TLC; I2S lets TLC recompute / judge recorded results."""
import json, os, re, shutil, subprocess, sys, time, hashlib

VERIF = os.path.dirname(os.path.dirname(os.path.abspath(__file__)))
WORK = os.environ.get("VERIF_WORK", "/dev/shm/verif-work")
HARNESS = os.path.join(VERIF, "harness")
BIN = os.path.join(HARNESS, "target", "debug", "vharness")
TLA_JAR = "/opt/veriftools/tla/tla2tools.jar"
NCPU = os.cpu_count() or 4


class ToolError(Exception):
    pass


def log(*a):
    print(*a, flush=True)


def build_harness():
    t = time.time()
    env = dict(os.environ, CARGO_NET_OFFLINE="true")
    r = subprocess.run(["cargo", "build", "--offline", "--quiet"], cwd=HARNESS, env=env,
                       stdout=subprocess.PIPE, stderr=subprocess.STDOUT, text=True)
    if r.returncode != 0:
        errs = [l for l in r.stdout.splitlines() if not l.startswith("warning")]
        raise ToolError("harness build failed:\n" + "\n".join(errs[-60:]))
    return time.time() - t


def workdir(prop):
    d = os.path.join(WORK, prop)
    os.makedirs(d, exist_ok=True)
    return d


_SPEC_HASH = None


def _mc_cache_key(module, cfg_text, env, simulate, extra):
    """Rehearsals only (VERIF_MC_CACHE=<dir>; never set by a registered command): a bounded model's output depends on the
    specifications, its cfg and its input files alone - not on the code under test - so mutation rehearsals reuse it."""
    global _SPEC_HASH
    if _SPEC_HASH is None:
        h = hashlib.sha256()
        for root, _, files in sorted(os.walk(os.path.join(VERIF, "spec"))):
            for fn in sorted(files):
                if fn.endswith((".tla", ".cfg")):
                    h.update(fn.encode())
                    h.update(open(os.path.join(root, fn), "rb").read())
        _SPEC_HASH = h.hexdigest()
    h = hashlib.sha256((_SPEC_HASH + module + cfg_text + repr(simulate) + repr(list(extra))).encode())
    for k, v in sorted((env or {}).items()):
        h.update(k.encode())
        h.update(open(v, "rb").read() if os.path.isfile(str(v)) else str(v).encode())
    return h.hexdigest()[:32]


def run_tlc(spec_dir, module, cfg_text, out_path, workers=8, env=None, timeout=1800, extra=(), heap="8g",
            simulate=None):
    """Runs TLC on spec_dir/module.tla with the given cfg text. Returns dict with counts and error text."""
    cache = os.environ.get("VERIF_MC_CACHE")
    if cache and not module.startswith("Trace_") and not simulate:
        key = os.path.join(cache, module + "-" + _mc_cache_key(module, cfg_text, env, simulate, extra))
        if os.path.exists(key + ".json"):
            shutil.copyfile(key + ".out", out_path)
            res = json.load(open(key + ".json"))
            res["out"] = out_path
            return res
        res = _run_tlc(spec_dir, module, cfg_text, out_path, workers, env, timeout, extra, heap, simulate)
        if not res["error"]:
            os.makedirs(cache, exist_ok=True)
            shutil.copyfile(out_path, key + ".out.tmp%d" % os.getpid())
            os.replace(key + ".out.tmp%d" % os.getpid(), key + ".out")
            json.dump(res, open(key + ".json", "w"))
        return res
    return _run_tlc(spec_dir, module, cfg_text, out_path, workers, env, timeout, extra, heap, simulate)


def _run_tlc(spec_dir, module, cfg_text, out_path, workers=8, env=None, timeout=1800, extra=(), heap="8g",
             simulate=None):
    wd = os.path.dirname(out_path)
    tag = os.path.basename(out_path).replace(".out", "")
    cfg_path = os.path.join(wd, tag + ".cfg")
    with open(cfg_path, "w") as f:
        f.write(cfg_text)
    meta = os.path.join(wd, tag + ".meta")
    shutil.rmtree(meta, ignore_errors=True)
    cp = os.pathsep.join([TLA_JAR] + [os.path.join(VERIF, "spec", d) for d in sorted(os.listdir(os.path.join(VERIF, "spec")))])
    jtmp = os.path.join(wd, tag + ".jtmp")       # TLC unpacks its standard modules into java.io.tmpdir: keep /tmp clean
    shutil.rmtree(jtmp, ignore_errors=True)
    os.makedirs(jtmp, exist_ok=True)
    cmd = ["timeout", str(timeout), "java", "-XX:+UseParallelGC", "-Xss1g", "-Xmx" + heap, "-Dfile.encoding=UTF-8", "-Djava.io.tmpdir=" + jtmp,
           "-Dtlc2.tool.queue.IStateQueue=StateDeque" if module.startswith("Trace_") else "-Dverif=1",
           "-cp", cp, "tlc2.TLC", "-workers", str(workers), "-metadir", meta, "-cleanup", "-noGenerateSpecTE",
           "-config", cfg_path]
    if simulate:
        cmd += ["-simulate", simulate]
    cmd += list(extra) + [os.path.join(spec_dir, module + ".tla")]
    e = dict(os.environ)
    if env:
        e.update(env)
    t = time.time()
    with open(out_path, "w") as f:
        r = subprocess.run(cmd, cwd=spec_dir, env=e, stdout=f, stderr=subprocess.STDOUT)
    shutil.rmtree(meta, ignore_errors=True)
    shutil.rmtree(jtmp, ignore_errors=True)
    res = {"rc": r.returncode, "wall": time.time() - t, "generated": 0, "distinct": 0, "error": None, "out": out_path,
           "module": module}
    err_lines = []
    in_err = False
    with open(out_path, errors="replace") as f:
        for line in f:
            if line.startswith('"'):
                continue
            m = re.match(r"(\d+) states generated, (\d+) distinct states found", line)
            if m:
                res["generated"], res["distinct"] = int(m.group(1)), int(m.group(2))
            if line.startswith("Error:") or "TLC threw an unexpected exception" in line:
                in_err = True
            if in_err and len(err_lines) < 80:
                err_lines.append(line.rstrip())
    if r.returncode == 124:
        res["error"] = "timeout"
        res["timeout"] = True
    elif err_lines:
        res["error"] = "\n".join(err_lines)
    elif r.returncode != 0:
        res["error"] = "tlc exit %d" % r.returncode
    res["invariant_violated"] = bool(err_lines) and any("Invariant" in l and "violated" in l for l in err_lines)
    return res


def tlc_strings(out_path):
    """Yields the JSON values TLC printed with PrintT(ToJson(..)) (one TLA+ string literal per line)."""
    with open(out_path, errors="replace") as f:
        for line in f:
            if line.startswith('"{') or line.startswith('"['):
                try:
                    yield json.loads(json.loads(line))
                except Exception as e:  # pragma: no cover
                    raise ToolError("cannot parse TLC output line: %s (%s)" % (line[:200], e))


def tlc_tuples(out_path, tag):
    """Yields payloads of lines printed as PrintT(<<tag, ...>>): returns the raw line."""
    pre = '<<"%s"' % tag
    with open(out_path, errors="replace") as f:
        for line in f:
            if line.startswith(pre):
                yield line.rstrip("\n")


def empty(x):
    return (isinstance(x, (list, dict)) and len(x) == 0)


def deq(a, b):
    """Deep equality where the empty function/sequence [] and {} coincide (TLC prints both as [])."""
    if empty(a) and empty(b):
        return True
    if isinstance(a, dict) and isinstance(b, dict):
        return a.keys() == b.keys() and all(deq(a[k], b[k]) for k in a)
    if isinstance(a, list) and isinstance(b, list):
        return len(a) == len(b) and all(deq(x, y) for x, y in zip(a, b))
    if isinstance(a, bool) or isinstance(b, bool):
        return a is b
    return a == b


def matches(got, exp):
    """exp is the specification's expectation: a result {ok,v} (a refusal matches any refusal, a value
    must be equal), {"anyof":[..]}, or a record whose keys are each matched (extra keys of got are
    raw material for trace validation, not judged here)."""
    if isinstance(exp, dict) and "anyof" in exp:
        return any(matches(got, e) for e in exp["anyof"])
    if isinstance(got, dict) and "panic" in got:
        return False
    if isinstance(exp, dict) and "ok" in exp and "v" in exp:
        if not (isinstance(got, dict) and "ok" in got):
            return False
        if exp["ok"] is False:
            return got.get("ok") is False
        return got.get("ok") is True and deq(got.get("v"), exp["v"])
    if isinstance(exp, dict) and len(exp) > 0:
        return isinstance(got, dict) and all(k in got and matches(got[k], exp[k]) for k in exp)
    return deq(got, exp)


def diff_paths(a, b, path="", out=None, limit=12):
    """Paths at which two JSON values differ, list indices and map keys generalised for signatures."""
    if out is None:
        out = []
    if len(out) >= limit:
        return out
    if empty(a) and empty(b):
        return out
    if isinstance(a, dict) and isinstance(b, dict):
        for k in sorted(set(a) | set(b)):
            if k not in a:
                out.append(path + "/+" + gen_key(k))
            elif k not in b:
                out.append(path + "/-" + gen_key(k))
            else:
                diff_paths(a[k], b[k], path + "/" + gen_key(k), out, limit)
    elif isinstance(a, list) and isinstance(b, list) and len(a) == len(b):
        for i, (x, y) in enumerate(zip(a, b)):
            diff_paths(x, y, path + "/#", out, limit)
    elif not deq(a, b):
        out.append(path + ("" if type(a) == type(b) else "!type"))
    return out


def gen_key(k):
    return k.split(" ")[0] if " " in k else k


def _run_harness(args, what, timeout, extra_env=None):
    """stdout/stderr of the harness go to a file (code under test may print a lot, e.g. insert_mappings reports every change it
    ignores); the tail is shown when the harness itself fails."""
    env = dict(os.environ, RUST_BACKTRACE="0", RUST_LIB_BACKTRACE="0")
    env.update(extra_env or {})
    log_path = args[-1] + ".log"
    with open(log_path, "w") as lf:
        r = subprocess.run(["timeout", str(timeout), BIN] + args, stdout=lf, stderr=subprocess.STDOUT, env=env)
    if r.returncode != 0:
        with open(log_path, "rb") as lf:
            lf.seek(0, 2)
            lf.seek(max(0, lf.tell() - 2000))
            tail = lf.read().decode("utf-8", "replace")
        raise ToolError("vharness %s failed (%d): %s" % (what, r.returncode, tail))
    os.remove(log_path)


def exec_harness(prop, in_path, out_path, timeout=3600, rev=False):
    """rev: every mapping set of every record is built with its entries inserted in the opposite order (VERIF_REV, read by the
    harness): the operations on mapping sets are functions of partial maps, their answers may not depend on insertion order."""
    _run_harness(["exec", prop, in_path, out_path], "exec", timeout, {"VERIF_REV": "1"} if rev else None)


def gen_harness(prop, seed, n, out_path, timeout=3600):
    _run_harness(["gen", prop, str(seed), str(n), out_path], "gen", timeout)


def read_ndjson(path):
    with open(path) as f:
        for line in f:
            if line.strip():
                yield json.loads(line)


def write_ndjson(path, recs):
    n = 0
    with open(path, "w") as f:
        for r in recs:
            f.write(json.dumps(r, ensure_ascii=True, separators=(",", ":")))
            f.write("\n")
            n += 1
    return n


def load_known():
    p = os.path.join(VERIF, "known_findings.json")
    if not os.path.exists(p):
        return {"findings": [], "fixed": []}
    return json.load(open(p))


def short_hash(x):
    return hashlib.sha1(json.dumps(x, sort_keys=True).encode()).hexdigest()[:10]


def write_evidence(prop, tier, seed, level, coverage, assumptions, wall, violations):
    os.makedirs(os.path.join(VERIF, "evidence"), exist_ok=True)
    ev = {"property_id": prop, "tier": tier, "seed": seed, "level": level, "coverage": coverage,
          "assumptions": assumptions, "wall_s": round(wall, 2), "violations": violations}
    with open(os.path.join(VERIF, "evidence", prop + ".json"), "w") as f:
        json.dump(ev, f, indent=1, ensure_ascii=True)
        f.write("\n")


def trim(v, n=1500):
    s = json.dumps(v, ensure_ascii=True)
    return v if len(s) <= n else {"_truncated": s[:n]}
