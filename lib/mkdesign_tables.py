#!/usr/bin/env python3
"""Regenerates the tables of DESIGN.md that mirror files: fixed defects and findings (known_findings.json), seeded changes (seeded/*/meta.json).
The text between <!-- BEGIN:x --> and <!-- END:x --> is replaced."""
import glob, json, os, re
V = os.path.dirname(os.path.dirname(os.path.abspath(__file__)))
k = json.load(open(os.path.join(V, "known_findings.json")))

def cell(s, n=260):
    s = " ".join(str(s).split()).replace("|", "\\|")
    return s if len(s) <= n else s[:n - 1] + "…"

fixed = ["| property | commit | defect |", "|---|---|---|"]
for f in k["fixed"]:
    m = re.match(r"fixed: property=(C\d+) ([0-9a-f]{7}) (.*)", f)
    fixed.append("| %s | %s | %s |" % (m.group(1), m.group(2), cell(m.group(3))))
finds = ["| property | id | finding |", "|---|---|---|"]
for f in k["findings"]:
    finds.append("| %s | %s | %s |" % (f["property"], f["id"], cell(f["what"], 330)))
seeds = ["| seed | property | change | needs | result of the quick check |", "|---|---|---|---|---|"]
for d in sorted(glob.glob(os.path.join(V, "seeded", "*", ""))):
    m = json.load(open(os.path.join(d, "meta.json")))
    v = m.get("verified_by_me", {})
    res = v.get("check_result", "not run yet")
    note = v.get("note", "")
    if not note and v.get("signatures"):
        note = "signatures: " + "; ".join(v["signatures"][:2])
    seeds.append("| %s | %s | %s | %s | %s |" % (os.path.basename(d.rstrip("/")), m["property"], cell(m["summary"], 200), cell(m.get("needs", ""), 160), cell(res + (" — " + note if note else ""), 240)))
p = os.path.join(V, "DESIGN.md")
s = open(p).read()
for name, rows in (("fixed", fixed), ("findings", finds), ("seeded", seeds)):
    b, e = "<!-- BEGIN:%s -->" % name, "<!-- END:%s -->" % name
    if b in s:
        s = s[:s.index(b) + len(b)] + "\n" + "\n".join(rows) + "\n" + s[s.index(e):]
open(p, "w").write(s)
print("DESIGN.md tables: %d fixed, %d findings, %d seeds" % (len(fixed) - 2, len(finds) - 2, len(seeds) - 2))
